package props

import (
	"bytes"
	"encoding/hex"
	"encoding/json"
	"fmt"
	"strings"
	"testing"

	"github.com/google/go-tdx-guest/abi"
	"github.com/google/go-tdx-guest/pcs"
	"github.com/google/go-tdx-guest/verify"
	"pgregory.net/rapid"
	"verifharness/gen"
)

// c04Run serves the world's (re-signed) TCB Info to an otherwise honest world and compares
// the verdict with the reference model; then queries the level-reporting API.
func c04Run(t gen.TB, w *gen.World, desc string, keyHint string) {
	w.Resp[gen.TcbInfoURL(w.FmspcHex())] = w.TcbInfoResponse()
	m := gen.TcbModel(w)
	g := w.NewGetter()
	o := w.Options(gen.LvlColl, g, nil)
	msg := w.Q.ToProto()
	// the options value may have been in use: earlier calls that failed at one stage or another (see optionsPrehistory)
	pk := prehistoryKind(w.Raw)
	if ph := optionsPrehistory(w.Raw, o, pk, w.NewGetter()); ph != "" {
		desc += " [" + ph + "]"
		gen.Class("options-value-used-before")
	}
	gen.Eval()
	v := gen.Call(func() error { return verify.TdxQuote(msg, o) })
	rp := w.CaseFile(gen.LvlColl, nil, nil, nil, map[bool]string{true: "accept", false: "reject"}[m.Accept])
	rp["prehistory"] = pk
	if v.Panicked() {
		gen.Fail(t, gen.Violation{Key: "panic@" + gen.PanicSite(v.Stack), Oracle: "verification returns a verdict", Detail: desc + ": " + v.Panic, Replay: rp})
		return
	}
	if v.Accepted() && !m.Accept {
		gen.Fail(t, gen.Violation{Key: "accepts-bad-tcb:" + keyClass(m.Reason), Oracle: "accepted only if identity fields match and the selected platform (and module) level is UpToDate",
			Detail: fmt.Sprintf("%s: model rejects (%s), library accepted", desc, m.Reason), Replay: rp})
		return
	}
	if m.MalformedLevel {
		// with a malformed level in the list, skipping it and refusing the document are both fine; accepting needs the skip reading to accept
		gen.Class("model:malformed-level-present")
		gen.NonTrivial(desc, w.TcbInfo.Render())
		return
	}
	if !v.Accepted() && m.Accept {
		gen.Fail(t, gen.Violation{Key: "rejects-good-tcb:" + errClass(v.Err), Oracle: "an UpToDate platform and module with matching identity fields is accepted",
			Detail: fmt.Sprintf("%s: model accepts (platform level %d, module level %d), library: %s", desc, m.PlatformLevel, m.ModuleLevel, v), Replay: rp})
		return
	}
	// level-reporting API on the same options
	gen.Eval()
	var tl, ql pcs.TcbLevel
	vs := gen.Call(func() error {
		var err error
		tl, ql, err = verify.SupportedTcbLevelsFromCollateral(msg, o)
		return err
	})
	_ = ql
	if vs.Panicked() {
		gen.Fail(t, gen.Violation{Key: "supported-levels-panic@" + gen.PanicSite(vs.Stack), Oracle: "the level-reporting API returns levels or an error", Detail: desc + ": " + vs.Panic, Replay: rp})
		return
	}
	identityOK := !strings.Contains(m.Reason, "differ") && !strings.Contains(m.Reason, "size")
	if identityOK || m.Accept {
		if m.PlatformLevel < 0 || (m.ModuleBranch && m.ModuleLevel < 0 && (strings.Contains(m.Reason, "missing") || strings.Contains(m.Reason, "no module level"))) {
			if vs.Accepted() {
				gen.Fail(t, gen.Violation{Key: "supported-levels-empty-without-error", Oracle: "if no level matches, the API that reports the supported TCB levels returns an error rather than an empty level",
					Detail: fmt.Sprintf("%s: %s, API returned (%+v, nil error)", desc, m.Reason, tl), Replay: rp})
				return
			}
		} else if vs.Accepted() {
			// the reported level must be one of the levels the algorithm selected (platform level, or the module level)
			ok := false
			want := []string{}
			if m.PlatformLevel >= 0 {
				want = append(want, w.TcbInfo.Levels[m.PlatformLevel].Status)
			}
			if m.ModuleBranch && m.ModuleLevel >= 0 {
				wantID := "TDX_" + gen.Hex([]byte{w.Q.TeeTcbSvn[1]})
				for _, id := range w.TcbInfo.Identities {
					if id.ID == wantID {
						want = append(want, id.Levels[m.ModuleLevel].Status)
						break
					}
				}
			}
			for _, st := range want {
				if string(tl.TcbStatus) == st {
					ok = true
				}
			}
			if !ok {
				gen.Fail(t, gen.Violation{Key: "supported-levels-not-the-selected-level", Oracle: "the reported TCB level is the level the selection algorithm picks", Detail: fmt.Sprintf("%s: reported status %q, selected %v", desc, tl.TcbStatus, want), Replay: rp})
				return
			}
		}
	}
	gen.Class("model:" + map[bool]string{true: "accept", false: "reject:" + keyClass(m.Reason)}[m.Accept])
	sel := m.PlatformLevel > 0 || m.ModuleBranch
	if m.PlatformLevel >= 0 {
		st := w.TcbInfo.Levels[m.PlatformLevel].Status
		if st != "UpToDate" && st != "OutOfDate" {
			sel = true
		}
	}
	if sel {
		gen.NonTrivial(desc, w.TcbInfo.Render())
	}
}

func keyClass(reason string) string {
	f := strings.Fields(reason)
	if len(f) > 4 {
		f = f[:4]
	}
	s := strings.Join(f, "_")
	for _, st := range gen.Statuses {
		s = strings.ReplaceAll(s, st, "not-UpToDate")
	}
	return errNoise.ReplaceAllString(s, "")
}

// levelShape makes one platform level from an abstract shape relative to the world's platform.
// shape: 0 pass(lower), 1 pass(equal), 2.. failing comparisons.
var levelShapes = []string{"pass-lower", "pass-equal", "sgx>@0", "sgx>@1", "sgx>@2", "sgx>@15", "pce>", "tdx>@0", "tdx>@1", "tdx>@2", "tdx>@15"}

func shapeLevel(w *gen.World, shape, status string) gen.PlatformLevel {
	l := gen.PlatformLevel{Sgx: w.Sgx.Comp, PceSvn: w.Sgx.PceSvn, Tdx: w.Q.TeeTcbSvn, Status: status}
	switch {
	case shape == "pass-lower":
		for i := range l.Sgx {
			l.Sgx[i] /= 2
			l.Tdx[i] /= 2
		}
		l.PceSvn /= 2
	case shape == "pass-equal":
	case strings.HasPrefix(shape, "sgx>@"):
		var i int
		fmt.Sscanf(shape, "sgx>@%d", &i)
		l.Sgx[i]++
	case shape == "pce>":
		l.PceSvn++
	case strings.HasPrefix(shape, "tdx>@"):
		var i int
		fmt.Sscanf(shape, "tdx>@%d", &i)
		l.Tdx[i]++
	}
	return l
}

var moduleShapes = []string{"below", "equal", "above"}

func shapeModuleLevel(w *gen.World, shape, status string) gen.ModuleLevel {
	v := uint32(w.Q.TeeTcbSvn[0])
	switch shape {
	case "below":
		v--
	case "above":
		v++
	}
	return gen.ModuleLevel{Isvsvn: v, Status: status}
}

// c04BaseWorld returns a built honest world whose platform values leave head-room (so that
// "one above" and "one below" exist for every compared value).
func c04BaseWorld(seed uint64, moduleVersion byte) *gen.World {
	s := gen.NewStream(seed, "c04base")
	w := gen.NewWorld(gen.NewPKI(gen.PKISpec{Seed: "pki-A"}), s)
	for i := range w.Sgx.Comp {
		w.Sgx.Comp[i] = 2 + w.Sgx.Comp[i]%250
		w.Q.TeeTcbSvn[i] = 2 + w.Q.TeeTcbSvn[i]%250
	}
	w.Sgx.PceSvn = 2 + w.Sgx.PceSvn%60000
	w.Q.TeeTcbSvn[1] = moduleVersion
	w.HonestCollateral()
	w.Build()
	return w
}

func TestC04(t *testing.T) {
	replayDir(t, "C04")
	// (a) the small-scope abstraction: sampled in quick, enumerated completely in thorough.
	type absCase struct {
		mv      byte
		levels  [][2]int // shape index, status index
		modules [][2]int // module shape index, status index ; nil = identity absent
		present bool
	}
	runAbs := func(t gen.TB, bases map[byte]*gen.World, c absCase) {
		w := bases[c.mv]
		var ls []gen.PlatformLevel
		var desc []string
		for li, l := range c.levels {
			lv := shapeLevel(w, levelShapes[l[0]], gen.Statuses[l[1]])
			lv.Date = gen.LevelDates[(li*2+l[0]+l[1])%len(gen.LevelDates)] // dates deliberately not in listed order
			ls = append(ls, lv)
			desc = append(desc, levelShapes[l[0]]+"/"+gen.Statuses[l[1]])
		}
		w.TcbInfo.Levels = ls
		w.TcbInfo.Identities = nil
		md := "no-identity"
		if c.present {
			var ml []gen.ModuleLevel
			md = "identity["
			for _, m := range c.modules {
				ml = append(ml, shapeModuleLevel(w, moduleShapes[m[0]], gen.Statuses[m[1]]))
				md += moduleShapes[m[0]] + "/" + gen.Statuses[m[1]] + " "
			}
			md += "]"
			w.TcbInfo.Identities = []gen.ModuleIdentity{{ID: fmt.Sprintf("TDX_%02x", maxb(c.mv, 1)), Mrsigner: make([]byte, 48), Attributes: make([]byte, 8), Mask: make([]byte, 8), Levels: ml}}
		}
		if dec := fmt.Sprintf("TDX_%02d", c.mv); c.mv >= 10 && dec != fmt.Sprintf("TDX_%02x", c.mv) {
			// an identity under the DECIMAL spelling of the version is a different identity and must not be consulted
			st := "UpToDate"
			if len(c.levels)%2 == 0 {
				st = "Revoked"
			}
			decoy := gen.ModuleIdentity{ID: dec, Mrsigner: make([]byte, 48), Attributes: make([]byte, 8), Mask: make([]byte, 8), Levels: []gen.ModuleLevel{{Isvsvn: 0, Status: st}}}
			w.TcbInfo.Identities = append([]gen.ModuleIdentity{decoy}, w.TcbInfo.Identities...)
			md += " +decoy " + dec + "/" + st
		}
		d := fmt.Sprintf("TEE_TCB_SVN[1]=%d levels=%v %s", c.mv, desc, md)
		c04Run(t, w, d, "")
	}
	bases := map[byte]*gen.World{0: c04BaseWorld(gen.Seed(), 0), 1: c04BaseWorld(gen.Seed()+1, 1), 2: c04BaseWorld(gen.Seed()+2, 2), 10: c04BaseWorld(gen.Seed()+3, 10), 16: c04BaseWorld(gen.Seed()+4, 16), 171: c04BaseWorld(gen.Seed()+5, 171)}
	if gen.Tier() == "thorough" {
		gen.Direct(t, "abstraction-exhaustive", func(t *testing.T) {
			idx := 0
			nS, nM := len(levelShapes), len(moduleShapes)
			platform := [][][2]int{}
			for a := 0; a < nS*7; a++ {
				platform = append(platform, [][2]int{{a / 7, a % 7}})
			}
			for a := 0; a < nS*7; a++ {
				// second level only matters when the first does not match, or for "first wins"
				for b := 0; b < nS*7; b++ {
					platform = append(platform, [][2]int{{a / 7, a % 7}, {b / 7, b % 7}})
				}
			}
			mods := [][][2]int{nil}
			for a := 0; a < nM*7; a++ {
				mods = append(mods, [][2]int{{a / 7, a % 7}})
			}
			for a := 0; a < nM*7; a++ {
				for b := 0; b < nM*7; b++ {
					mods = append(mods, [][2]int{{a / 7, a % 7}, {b / 7, b % 7}})
				}
			}
			for _, pl := range platform {
				// TEE_TCB_SVN[1] == 0: module list irrelevant (one representative: absent, and one present)
				for _, c := range []absCase{{mv: 0, levels: pl}, {mv: 0, levels: pl, present: true, modules: [][2]int{{1, 4}}}} {
					idx++
					if gen.ShardOwns(idx) {
						runAbs(t, bases, c)
					}
				}
			}
			// module branch: reduced platform shapes x all module lists
			reduced := []int{0, 1, 2, 7, 8, 9}
			for _, mv := range []byte{1, 2, 10, 16} {
				var pls [][][2]int
				for _, a := range reduced {
					for st := 0; st < 7; st++ {
						pls = append(pls, [][2]int{{a, st}})
					}
				}
				for _, a := range reduced {
					for _, b := range reduced {
						for _, st := range [][2]int{{0, 0}, {0, 4}, {4, 0}, {6, 0}, {0, 6}, {1, 0}} {
							pls = append(pls, [][2]int{{a, st[0]}, {b, st[1]}})
						}
					}
				}
				for _, pl := range pls {
					for mi, md := range mods {
						idx++
						if gen.ShardOwns(idx) {
							runAbs(t, bases, absCase{mv: mv, levels: pl, present: mi > 0, modules: md})
						}
					}
				}
			}
			gen.Exhaustive("small-scope abstraction: <=2 platform levels x 11 comparison shapes x 7 statuses (no module); module branch: 6 shapes x statuses x identity absent / <=2 module levels x {below,equal,above} x 7 statuses", true)
		})
	}
	// the status that accepts is spelled UpToDate: the level that decides carries a near miss of it (another letter
	// case, a blank, a look-alike letter) - the quote is not accepted, whether the document is refused or the level
	// counts as not up to date
	gen.Direct(t, "status-spellings", func(t *testing.T) {
		i := 0
		for _, sp := range statusNearMisses {
			for _, where := range []string{"platform", "module"} {
				i++
				if !gen.ShardOwns(i) {
					continue
				}
				w := gen.NewWorld(gen.NewPKI(gen.PKISpec{Seed: gen.PKISeeds[i%len(gen.PKISeeds)]}), gen.NewStream(gen.Seed()+uint64(i), "c04status"))
				if where == "module" {
					w.Q.TeeTcbSvn[1] = 1
				}
				w.HonestCollateral()
				if where == "platform" {
					for k := range w.TcbInfo.Levels {
						w.TcbInfo.Levels[k].Status = sp
					}
				} else {
					if len(w.TcbInfo.Identities) == 0 {
						continue
					}
					for a := range w.TcbInfo.Identities {
						for b := range w.TcbInfo.Identities[a].Levels {
							w.TcbInfo.Identities[a].Levels[b].Status = sp
						}
					}
				}
				w.Build()
				o := w.Options(gen.LvlColl, w.NewGetter(), nil)
				gen.Eval()
				v := gen.Call(func() error { return verify.RawTdxQuote(w.Raw, o) })
				if v.Panicked() || v.Accepted() {
					gen.Fail(t, gen.Violation{Key: "accepts-bad-tcb:status-near-miss:" + where, Oracle: "accepted only if identity fields match and the selected platform (and module) level is UpToDate", Detail: fmt.Sprintf("every %s level carries tcbStatus %q: %s", where, sp, v), Replay: w.CaseFile(gen.LvlColl, nil, nil, nil, "reject")})
					return
				}
				gen.NonTrivial("c04status", sp, where)
			}
		}
		gen.Class("status-spellings")
	})
	gen.Prop(t, "abstraction-sampled", gen.N(5000, 20000), func(t *rapid.T) {
		c := absCase{mv: rapid.SampledFrom([]byte{0, 0, 1, 1, 2, 10, 16, 171}).Draw(t, "mv")}
		for i, n := 0, rapid.IntRange(1, 2).Draw(t, "levels"); i < n; i++ {
			c.levels = append(c.levels, [2]int{rapid.IntRange(0, len(levelShapes)-1).Draw(t, "shape"), rapid.SampledFrom([]int{0, 0, 1, 2, 3, 4, 5, 6}).Draw(t, "status")})
		}
		c.present = rapid.IntRange(0, 3).Draw(t, "identity") > 0
		for i, n := 0, rapid.IntRange(0, 2).Draw(t, "mlevels"); i < n && c.present; i++ {
			c.modules = append(c.modules, [2]int{rapid.IntRange(0, 2).Draw(t, "mshape"), rapid.SampledFrom([]int{0, 0, 1, 2, 3, 4, 5, 6}).Draw(t, "mstatus")})
		}
		gen.Sample("abstraction", fmt.Sprintf("%+v", c))
		runAbs(t, bases, c)
	})
	// (a'') two defects of a signed TCB Info at once. The first listed level is UpToDate but carries a number the level's
	// field cannot hold (a component SVN of 256 and more, a PCESVN of 65536 and more, a negative one): whatever the
	// verifier makes of such a level, the platform does not meet it. The level the platform does meet is listed second and
	// is OutOfDate / Revoked. In front of, or behind, the bad number another member of the level has the wrong JSON type
	// (advisoryIDs as a string, a number, an object). Refusing the document and skipping the level both reject; nothing
	// accepts.
	gen.Prop(t, "type-error-behind-another", gen.N(600, 40000), func(t *rapid.T) {
		s := gen.NewStream(rapid.Uint64().Draw(t, "content"), "c04te")
		w := gen.NewWorld(gen.NewPKI(gen.PKISpec{Seed: gen.PKISeeds[s.Intn(4)]}), s)
		for i := range w.Sgx.Comp {
			w.Sgx.Comp[i] = byte(1 + s.Intn(200))
		}
		w.Sgx.PceSvn = uint16(1 + s.Intn(60000))
		w.HonestCollateral()
		met := w.TcbInfo.Levels[0]
		met.Status = rapid.SampledFrom([]string{"OutOfDate", "Revoked", "OutOfDateConfigurationNeeded", "ConfigurationNeeded", "SWHardeningNeeded"}).Draw(t, "statusOfTheLevelThatIsMet")
		first := w.TcbInfo.Levels[0] // UpToDate, equal to the platform: the bad number is put in by text below
		w.TcbInfo.Levels = []gen.PlatformLevel{first, met}
		w.Build()
		doc := string(w.TcbInfo.Render())
		li := strings.Index(doc, `"tcbLevels":[{"tcb":{"sgxtcbcomponents"`)
		if li < 0 {
			gen.HarnessError(t, "unexpected rendering of the TCB Info")
		}
		head, levels := doc[:li], doc[li:]
		which := rapid.SampledFrom([]string{"component", "component", "pcesvn", "tdx-component"}).Draw(t, "field")
		bad := rapid.SampledFrom([]string{"256", "263", "511", "65536", "1000000", "-1", "4294967296", "1e3"}).Draw(t, "number")
		switch which {
		case "component":
			k := rapid.IntRange(0, 15).Draw(t, "k")
			idx := nthIndex(levels, `{"svn":`, k)
			end := idx + strings.Index(levels[idx:], "}")
			levels = levels[:idx] + `{"svn":` + bad + levels[end:]
		case "tdx-component":
			at := strings.Index(levels, `"tdxtcbcomponents":[`)
			k := rapid.IntRange(2, 15).Draw(t, "k")
			idx := at + nthIndex(levels[at:], `{"svn":`, k)
			end := idx + strings.Index(levels[idx:], "}")
			levels = levels[:idx] + `{"svn":` + bad + levels[end:]
		default:
			if bad == "256" || bad == "263" || bad == "511" || bad == "1e3" {
				bad = "65536"
			}
			idx := strings.Index(levels, `"pcesvn":`)
			end := idx + strings.IndexAny(levels[idx:], ",}")
			levels = levels[:idx] + `"pcesvn":` + bad + levels[end:]
		}
		adv := rapid.SampledFrom([]string{"", `"advisoryIDs":"INTEL-SA-00615",`, `"advisoryIDs":7,`, `"advisoryIDs":{"id":"INTEL-SA-00615"},`, `"advisoryIDs":[1,2],`, `"tcbDate":20230816,`, `"advisoryIDs":true,`}).Draw(t, "otherTypeError")
		if adv != "" {
			if rapid.Bool().Draw(t, "inFront") {
				levels = strings.Replace(levels, `"tcbLevels":[{`, `"tcbLevels":[{`+adv, 1)
			} else {
				// behind the level's tcb member
				i := strings.Index(levels, `},"tcbDate"`)
				levels = levels[:i+2] + adv + levels[i+2:]
			}
		}
		signed := head + levels
		u := gen.TcbInfoURL(w.FmspcHex())
		w.Resp[u] = gen.Response{Header: w.Resp[u].Header, Body: gen.SignedBody("tcbInfo", []byte(signed), w.PKI.TcbSig.Key)}
		desc := fmt.Sprintf("first level UpToDate with %s = %s, other type error %q, the level the platform meets is %s", which, bad, adv, met.Status)
		for _, l := range []gen.Level{gen.LvlColl, gen.LvlCRL} {
			o := w.Options(l, w.NewGetter(), nil)
			gen.Eval()
			v := gen.Call(func() error { return verify.RawTdxQuote(w.Raw, o) })
			if v.Accepted() {
				gen.Fail(t, gen.Violation{Key: "accepts-bad-tcb:level-with-a-number-its-field-cannot-hold", Oracle: "accepted only if identity fields match and the selected platform (and module) level is UpToDate", Detail: desc + ": accepted at level " + l.String(), Replay: w.CaseFile(l, nil, nil, nil, "reject")})
				return
			}
			// the level report on the same options: whatever it reports, not the first level as met
			m, _ := abi.QuoteToProto(w.Raw)
			var tl pcs.TcbLevel
			vs := gen.Call(func() error {
				var err error
				tl, _, err = verify.SupportedTcbLevelsFromCollateral(m, o)
				return err
			})
			if vs.Accepted() && string(tl.TcbStatus) == "UpToDate" {
				gen.Fail(t, gen.Violation{Key: "supported-levels-not-the-selected-level", Oracle: "the reported TCB level is the level the selection algorithm picks", Detail: desc + fmt.Sprintf(": the level report names an UpToDate level (%+v)", tl.Tcb), Replay: w.CaseFile(l, nil, nil, nil, "reject")})
				return
			}
		}
		gen.NonTrivial("type-error", which, bad, adv)
		gen.Class("type-error-behind-another:other=" + map[bool]string{true: "yes", false: "none"}[adv != ""])
	})
	// The PCK certificate's TCB list with an element whose object identifier is NOT under the TCB arc (1.2.840.113741.
	// 1.13.1.<x>.<n>, x != 2) in place of the CPUSVN or next to the real elements: it is no component, whatever its last
	// arc says. The first TCB Info level (UpToDate) demands what that element claims, the level the real components meet
	// is OutOfDate.
	gen.Prop(t, "foreign-arc-element-in-the-tcb-list", gen.N(400, 30000), func(t *rapid.T) {
		s := gen.NewStream(rapid.Uint64().Draw(t, "content"), "c04arc")
		w := gen.NewWorld(gen.NewPKI(gen.PKISpec{Seed: gen.PKISeeds[s.Intn(4)]}), s)
		for i := range w.Sgx.Comp {
			w.Sgx.Comp[i] = byte(1 + s.Intn(100))
		}
		w.Sgx.PceSvn = uint16(1 + s.Intn(30000))
		top := gen.SgxTree(&w.Sgx)
		tcb := top.Kids[1].Kids[1]
		n := rapid.IntRange(1, 17).Draw(t, "claimedMember")
		x := rapid.SampledFrom([]int{1, 3, 4, 5, 12, 200}).Draw(t, "otherArc")
		claim := int64(200)
		if n == 17 {
			claim = 40000
		}
		foreign := gen.Seq(gen.OID(1, 2, 840, 113741, 1, 13, 1, x, n), gen.IntMin(claim))
		// in place of the CPUSVN (last element), so that the list keeps its 18 elements; sometimes in front
		if rapid.Bool().Draw(t, "inFront") {
			tcb.Kids = append([]*gen.Node{foreign}, tcb.Kids[:17]...)
		} else {
			tcb.Kids[17] = foreign
		}
		w.SgxDER = top.Encode()
		w.HonestCollateral()
		met := w.TcbInfo.Levels[0]
		met.Status = "OutOfDate"
		first := w.TcbInfo.Levels[0]
		if n <= 16 {
			first.Sgx[n-1] = byte(claim)
		} else {
			first.PceSvn = uint16(claim)
		}
		w.TcbInfo.Levels = []gen.PlatformLevel{first, met}
		w.Build()
		o := w.Options(gen.LvlColl, w.NewGetter(), nil)
		gen.Eval()
		v := gen.Call(func() error { return verify.RawTdxQuote(w.Raw, o) })
		if v.Accepted() {
			gen.Fail(t, gen.Violation{Key: "accepts-bad-tcb:foreign-arc-element-taken-for-a-component", Oracle: "accepted only if identity fields match and the selected platform (and module) level is UpToDate", Detail: fmt.Sprintf("TCB list with an element 1.2.840.113741.1.13.1.%d.%d = %d; the first level (UpToDate) demands that value for member %d, the real value is lower and the level it meets is OutOfDate: accepted", x, n, claim, n), Replay: w.CaseFile(gen.LvlColl, nil, nil, nil, "reject")})
			return
		}
		gen.NonTrivial("foreign-arc", x, n)
		gen.Class("foreign-arc-element")
	})
	// A level that asks, in ONE component, for more than the platform has - that component carrying one of the labels the
	// PCS attaches to components - is not met, whatever the label says; the level the platform does meet is OutOfDate.
	gen.Direct(t, "labelled-components", func(t *testing.T) {
		i := 0
		for _, major := range []byte{0, 1, 2} {
			for k := 0; k < 16; k++ {
				for _, label := range []string{"TDX Module", "OS/VMM", "SGX Late Microcode Update"} {
					for _, which := range []string{"tdx", "sgx"} {
						i++
						if !gen.ShardOwns(i) || (major != 0 && which == "tdx" && k < 2) {
							continue // on the module branch TDX components 0 and 1 are the module's own numbers
						}
						s := gen.NewStream(gen.Seed()+uint64(i), "c04label")
						w := gen.NewWorld(gen.NewPKI(gen.PKISpec{Seed: gen.PKISeeds[i%4]}), s)
						for j := range w.Sgx.Comp {
							w.Sgx.Comp[j] = byte(1 + s.Intn(200))
						}
						for j := range w.Q.TeeTcbSvn {
							w.Q.TeeTcbSvn[j] = byte(1 + s.Intn(200))
						}
						w.Q.TeeTcbSvn[1] = major
						w.HonestCollateral()
						met := w.TcbInfo.Levels[0]
						met.Status = "OutOfDate"
						first := w.TcbInfo.Levels[0]
						if which == "tdx" {
							first.Tdx[k]++
							first.TdxTypes[k] = label
						} else {
							first.Sgx[k]++
							first.SgxTypes[k] = label
						}
						w.TcbInfo.Levels = []gen.PlatformLevel{first, met}
						w.Build()
						o := w.Options(gen.LvlColl, w.NewGetter(), nil)
						gen.Eval()
						v := gen.Call(func() error { return verify.RawTdxQuote(w.Raw, o) })
						gen.NonTrivial("label", major, k, label, which)
						gen.Class("labelled-component:" + which)
						if v.Accepted() {
							gen.Fail(t, gen.Violation{Key: "accepts-bad-tcb:labelled-component-not-compared", Oracle: "accepted only if identity fields match and the selected platform (and module) level is UpToDate", Detail: fmt.Sprintf("TDX module major %d: the first level (UpToDate) asks for one more than the platform has in %s component %d, labelled %q; the level the platform meets is OutOfDate: accepted", major, which, k, label), Replay: w.CaseFile(gen.LvlColl, nil, nil, nil, "reject")})
							return
						}
					}
				}
			}
		}
	})
	// (a') the SIGNED TCB Info lacks something the evaluation needs while an unsigned, differently spelled sibling member
	// supplies a complete, favourable document: what the signed member does not say is not said
	gen.Prop(t, "signed-tcb-info-omits-what-an-unsigned-twin-supplies", gen.N(500, 40000), func(t *rapid.T) {
		drop := rapid.SampledFrom([]string{"tdxModuleIdentities", "tdxModuleIdentities", "tcbLevels", "fmspc", "pceId", "tdxModule", "level.tcbStatus", "module-level.tcbStatus", "identity.tcbLevels", "tdxModule.mrsigner", "tdxModule.attributesMask", "nextUpdate", "nextUpdate"}).Draw(t, "omitted")
		module := drop == "tdxModuleIdentities" || drop == "module-level.tcbStatus" || drop == "identity.tcbLevels"
		w, _ := gen.DrawWorld(t, gen.WorldCfg{MaxAuth: 16, Simple: true, ForceModule: module, NoModule: !module})
		w.Build()
		full := w.TcbInfo.Render()
		var m map[string]any
		dec := json.NewDecoder(bytes.NewReader(full))
		dec.UseNumber()
		if err := dec.Decode(&m); err != nil {
			gen.HarnessError(t, "own TCB Info does not decode: %v", err)
		}
		each := func(list any, f func(map[string]any)) {
			l, _ := list.([]any)
			for _, e := range l {
				if o, ok := e.(map[string]any); ok {
					f(o)
				}
			}
		}
		switch drop {
		case "level.tcbStatus":
			each(m["tcbLevels"], func(o map[string]any) { delete(o, "tcbStatus") })
		case "module-level.tcbStatus":
			each(m["tdxModuleIdentities"], func(id map[string]any) { each(id["tcbLevels"], func(o map[string]any) { delete(o, "tcbStatus") }) })
		case "identity.tcbLevels":
			each(m["tdxModuleIdentities"], func(id map[string]any) { delete(id, "tcbLevels") })
		case "tdxModule.mrsigner":
			delete(m["tdxModule"].(map[string]any), "mrsigner")
		case "tdxModule.attributesMask":
			delete(m["tdxModule"].(map[string]any), "attributesMask")
		default:
			delete(m, drop)
		}
		partial, _ := json.Marshal(m)
		sig := hex.EncodeToString(w.PKI.TcbSig.Key.SignRaw(partial))
		twin := rapid.SampledFrom(gen.FoldVariants("tcbInfo")).Draw(t, "twinSpelling")
		var body string
		if rapid.IntRange(0, 2).Draw(t, "afterAFailedDecode") == 0 {
			// no twin in the response: instead, the response the process saw just before carried the complete document
			// and failed to decode at its very last member. What a refused response said is no part of the next one.
			u := gen.TcbInfoURL(w.FmspcHex())
			tail := rapid.SampledFrom([]string{`"nextUpdate":"soon"`, `"issueDate":20240101`, `"version":"three"`, `"tcbEvaluationDataNumber":"x"`, `"tcbType":"zero"`}).Draw(t, "undecodableLastMember")
			key := tail[1 : strings.Index(tail[1:], `"`)+1]
			var fm map[string]json.RawMessage
			_ = json.Unmarshal(full, &fm)
			var sb strings.Builder
			sb.WriteString("{")
			for _, k := range []string{"id", "version", "issueDate", "nextUpdate", "fmspc", "pceId", "tcbType", "tcbEvaluationDataNumber", "tdxModule", "tdxModuleIdentities", "tcbLevels"} {
				if k == key || fm[k] == nil {
					continue
				}
				fmt.Fprintf(&sb, "%q:%s,", k, fm[k])
			}
			sb.WriteString(tail + "}")
			bad := sb.String()
			hdr := w.Resp[u].Header
			w.Resp[u] = gen.Response{Header: hdr, Body: []byte(`{"tcbInfo":` + bad + `,"signature":"` + hex.EncodeToString(w.PKI.TcbSig.Key.SignRaw([]byte(bad))) + `"}`)}
			o0 := w.Options(gen.LvlColl, w.NewGetter(), nil)
			gen.Eval()
			_ = gen.Call(func() error { return verify.RawTdxQuote(w.Raw, o0) })
			w.Resp[u] = gen.Response{Header: hdr, Body: []byte(`{"tcbInfo":` + string(partial) + `,"signature":"` + sig + `"}`)}
			o := w.Options(gen.LvlColl, w.NewGetter(), nil)
			gen.Eval()
			v := gen.Call(func() error { return verify.RawTdxQuote(w.Raw, o) })
			gen.Class("omitted-after-a-failed-decode:" + drop)
			gen.NonTrivial("omitted-after", drop, tail, w.Raw[:64])
			if v.Accepted() {
				gen.Fail(t, gen.Violation{Key: "accepts-bad-tcb:signed-tcb-info-lacks-" + drop + ":after-a-refused-response", Oracle: "accepted only if identity fields match and the selected platform (and module) level is UpToDate — according to the SIGNED TCB Info", Detail: fmt.Sprintf("the signed TCB Info has no %s; the response before it (refused: its last member %s does not decode) carried a complete document; the quote is accepted", drop, tail), Replay: w.CaseFile(gen.LvlColl, nil, nil, nil, "reject")})
			}
			return
		}
		switch rapid.IntRange(0, 2).Draw(t, "order") {
		case 0:
			body = `{"` + twin + `":` + string(full) + `,"tcbInfo":` + string(partial) + `,"signature":"` + sig + `"}`
		case 1:
			body = `{"tcbInfo":` + string(partial) + `,"` + twin + `":` + string(full) + `,"signature":"` + sig + `"}`
		default:
			body = `{"tcbInfo":` + string(partial) + `,"signature":"` + sig + `","` + twin + `":` + string(full) + `}`
		}
		u := gen.TcbInfoURL(w.FmspcHex())
		w.Resp[u] = gen.Response{Header: w.Resp[u].Header, Body: []byte(body)}
		o := w.Options(gen.LvlColl, w.NewGetter(), nil)
		gen.Eval()
		v := gen.Call(func() error { return verify.RawTdxQuote(w.Raw, o) })
		gen.Class("omitted:" + drop)
		gen.NonTrivial("omitted", drop, twin, w.Raw[:64])
		gen.Sample("omitted", map[string]any{"omitted": drop, "unsigned_twin": twin, "verdict": v.Short()})
		if v.Accepted() {
			gen.Fail(t, gen.Violation{Key: "accepts-bad-tcb:signed-tcb-info-lacks-" + drop, Oracle: "accepted only if identity fields match and the selected platform (and module) level is UpToDate — according to the SIGNED TCB Info", Detail: fmt.Sprintf("the signed TCB Info has no %s; an unsigned member %q supplies a complete document; the quote is accepted", drop, twin), Replay: w.CaseFile(gen.LvlColl, nil, nil, nil, "reject")})
			return
		}
		// the level report on the same options must not come from the unsigned twin either
		msg := w.Q.ToProto()
		var tl pcs.TcbLevel
		vs := gen.Call(func() error {
			var err error
			tl, _, err = verify.SupportedTcbLevelsFromCollateral(msg, o)
			return err
		})
		if vs.Accepted() && (drop == "tcbLevels" || drop == "level.tcbStatus") && tl.TcbStatus == "UpToDate" {
			gen.Fail(t, gen.Violation{Key: "supported-levels-from-unsigned-twin:" + drop, Oracle: "the reported TCB level is the level the selection algorithm picks from the SIGNED TCB Info", Detail: fmt.Sprintf("the signed TCB Info has no %s, the level report says UpToDate", drop), Replay: w.CaseFile(gen.LvlColl, nil, nil, nil, "reject")})
		}
	})

	// (b) random beyond the abstraction: full-range SVNs, up to 4 levels, arbitrary masks, identity-field faults.
	gen.Prop(t, "random", gen.N(3000, 250000), func(t *rapid.T) {
		w, d := gen.DrawWorld(t, gen.WorldCfg{MaxAuth: 16, LowerHexIDs: false})
		s := gen.NewStream(rapid.Uint64().Draw(t, "c"), "c04r")
		w.BuildLeaf()
		w.SignQuote()
		w.BuildCollateral()
		// perturb the TCB Info
		switch rapid.IntRange(0, 18).Draw(t, "perturb") {
		case 17, 18:
			// a level whose component lists are not lists of 16 entries (absent, empty, null, 15, 17, 1): it can never
			// be the matching level. It is put in front as the ONLY UpToDate level, so that skipping it and refusing the
			// document both end in rejection, while "an absent list is satisfied by every platform" would accept.
			shapes := []string{"absent", "empty", "null", "short", "long", "one"}
			bad := gen.PlatformLevel{Sgx: w.Sgx.Comp, PceSvn: w.Sgx.PceSvn, Tdx: w.Q.TeeTcbSvn, Status: "UpToDate"}
			if rapid.Bool().Draw(t, "zeroListed") {
				bad.Sgx, bad.Tdx, bad.PceSvn = [16]byte{}, [16]byte{}, 0
			}
			switch rapid.IntRange(0, 2).Draw(t, "which") {
			case 0:
				bad.SgxShape = rapid.SampledFrom(shapes).Draw(t, "sgxShape")
			case 1:
				bad.TdxShape = rapid.SampledFrom(shapes).Draw(t, "tdxShape")
			default:
				bad.SgxShape, bad.TdxShape = rapid.SampledFrom(shapes).Draw(t, "sgxShape"), rapid.SampledFrom(shapes).Draw(t, "tdxShape")
			}
			for i := range w.TcbInfo.Levels {
				if w.TcbInfo.Levels[i].Status == "UpToDate" {
					w.TcbInfo.Levels[i].Status = rapid.SampledFrom([]string{"OutOfDate", "Revoked", "ConfigurationNeeded"}).Draw(t, "demoted")
				}
			}
			pos := rapid.IntRange(0, 1).Draw(t, "badPos")
			if pos == 0 || len(w.TcbInfo.Levels) == 0 {
				w.TcbInfo.Levels = append([]gen.PlatformLevel{bad}, w.TcbInfo.Levels...)
			} else {
				w.TcbInfo.Levels = append(w.TcbInfo.Levels, bad)
			}
			gen.Class("level-with-malformed-component-list:" + bad.SgxShape + "/" + bad.TdxShape)
		case 14, 15, 16:
			// a TDX-module field of the wrong size whose beginning is exactly right (longer: the right value plus a
			// suffix; shorter: a prefix of it): a comparison over the first bytes only would call it a match
			field := rapid.SampledFrom([]string{"attributes", "attributes", "mask", "mrsigner"}).Draw(t, "sizedField")
			resize := func(b []byte) []byte {
				if rapid.Bool().Draw(t, "longer") {
					extra := rapid.SampledFrom([]int{1, 8, 56}).Draw(t, "extra")
					tail := make([]byte, extra)
					if rapid.Bool().Draw(t, "tailRandom") {
						tail = s.Bytes(extra)
					}
					return append(append([]byte{}, b...), tail...)
				}
				return append([]byte{}, b[:len(b)-rapid.SampledFrom([]int{1, len(b) / 2, len(b)}).Draw(t, "cut")]...)
			}
			switch field {
			case "attributes":
				w.TcbInfo.Attributes = resize(w.TcbInfo.Attributes)
			case "mask":
				w.TcbInfo.Mask = resize(w.TcbInfo.Mask)
			default:
				w.TcbInfo.Mrsigner = resize(w.TcbInfo.Mrsigner)
			}
			gen.Class("tdx-module-field-of-wrong-size:" + field)
		case 0:
			// replace the level list with arbitrary levels
			n := rapid.IntRange(1, 4).Draw(t, "n")
			w.TcbInfo.Levels = nil
			for i := 0; i < n; i++ {
				var l gen.PlatformLevel
				if rapid.Bool().Draw(t, "near") {
					l = shapeLevelSafe(w, rapid.SampledFrom(levelShapes).Draw(t, "shape"), rapid.SampledFrom(gen.Statuses).Draw(t, "st"))
				} else {
					s.Fill(l.Sgx[:])
					s.Fill(l.Tdx[:])
					l.PceSvn = uint16(s.Uint64())
					l.Status = rapid.SampledFrom(gen.Statuses).Draw(t, "st")
				}
				w.TcbInfo.Levels = append(w.TcbInfo.Levels, l)
			}
		case 1:
			i := rapid.IntRange(0, len(w.TcbInfo.Levels)-1).Draw(t, "lvl")
			w.TcbInfo.Levels[i].Status = rapid.SampledFrom(gen.Statuses).Draw(t, "st")
		case 2:
			w.TcbInfo.Fmspc = rapid.SampledFrom(append([]string{"000000000000", strings.ToUpper(w.TcbInfo.Fmspc), w.TcbInfo.Fmspc[2:] + "00", w.TcbInfo.Fmspc[:10]}, lookalikes(w.TcbInfo.Fmspc)...)).Draw(t, "fmspc")
		case 3:
			w.TcbInfo.PceID = rapid.SampledFrom(append([]string{"0000", strings.ToUpper(w.TcbInfo.PceID), w.TcbInfo.PceID[2:] + w.TcbInfo.PceID[:2], "ffff"}, lookalikes(w.TcbInfo.PceID)...)).Draw(t, "pceid")
		case 4:
			w.TcbInfo.Mrsigner[rapid.IntRange(0, 47).Draw(t, "b")] ^= 1 << uint(rapid.IntRange(0, 7).Draw(t, "bit"))
		case 5:
			// flip an attribute bit inside or outside the mask
			bit := rapid.IntRange(0, 63).Draw(t, "abit")
			w.TcbInfo.Attributes[bit/8] ^= 1 << uint(bit%8)
		case 6:
			bit := rapid.IntRange(0, 63).Draw(t, "mbit")
			w.TcbInfo.Mask[bit/8] ^= 1 << uint(bit%8)
		case 7:
			if len(w.TcbInfo.Identities) > 0 {
				i := rapid.IntRange(0, len(w.TcbInfo.Identities)-1).Draw(t, "id")
				for j := range w.TcbInfo.Identities[i].Levels {
					if rapid.Bool().Draw(t, "chg") {
						w.TcbInfo.Identities[i].Levels[j].Status = rapid.SampledFrom(gen.Statuses).Draw(t, "mst")
					}
				}
			}
		case 8:
			if len(w.TcbInfo.Identities) > 0 {
				w.TcbInfo.Identities = w.TcbInfo.Identities[1:]
			}
		case 9:
			if len(w.TcbInfo.Identities) > 0 {
				i := rapid.IntRange(0, len(w.TcbInfo.Identities)-1).Draw(t, "id")
				for j := range w.TcbInfo.Identities[i].Levels {
					w.TcbInfo.Identities[i].Levels[j].Isvsvn = uint32(rapid.IntRange(0, 300).Draw(t, "isv"))
				}
			}
		case 10:
			if len(w.TcbInfo.Identities) > 0 {
				w.TcbInfo.Identities[0].ID = rapid.SampledFrom([]string{"TDX_1", "tdx_01", "TDX_00", "TDX_0" + fmt.Sprint(w.Q.TeeTcbSvn[1]+1)}).Draw(t, "idname")
			}
		}
		// the PCS labels components ("type": "TDX Module", "OS/VMM", ...): text for people, no part of the comparison
		if rapid.Bool().Draw(t, "componentLabels") {
			for i := range w.TcbInfo.Levels {
				for k := 0; k < 16; k++ {
					if lbl := rapid.SampledFrom([]string{"", "", "TDX Module", "TDX Module", "OS/VMM", "Early Microcode Update", "SGX Late Microcode Update", "TDX Late Microcode Update"}).Draw(t, "label"); lbl != "" {
						w.TcbInfo.Levels[i].TdxTypes[k] = lbl
					}
					if rapid.IntRange(0, 3).Draw(t, "sgxLabel") == 0 {
						w.TcbInfo.Levels[i].SgxTypes[k] = rapid.SampledFrom([]string{"TDX Module", "Early Microcode Update", "SGX Late Microcode Update"}).Draw(t, "slabel")
					}
				}
			}
			gen.Class("random:component-labels")
		}
		c04Run(t, w, "random world ["+d.String()+"]", "")
		gen.Class("random")
	})
}

// lookalikes returns strings that are NOT the hex identifier id but would pass a sloppy comparison: characters that
// differ from a digit or letter only in the 0x20 bit (control characters for digits), full-width and Arabic-Indic
// digits, the Kelvin sign and long s (which case-fold to ASCII letters), white space and prefixes around the value.
func lookalikes(id string) []string {
	mapRunes := func(f func(r rune) rune) string {
		out := []rune(id)
		for i, r := range out {
			out[i] = f(r)
		}
		return string(out)
	}
	first := func(f func(r rune) (rune, bool)) string {
		out := []rune(id)
		for i, r := range out {
			if n, ok := f(r); ok {
				out[i] = n
				break
			}
		}
		return string(out)
	}
	isDigit := func(r rune) bool { return r >= '0' && r <= '9' }
	return []string{
		mapRunes(func(r rune) rune {
			if isDigit(r) {
				return r &^ 0x20
			}
			return r
		}),
		first(func(r rune) (rune, bool) { return r &^ 0x20, isDigit(r) }),
		first(func(r rune) (rune, bool) { return r - '0' + 0xff10, isDigit(r) }),
		first(func(r rune) (rune, bool) { return r - '0' + 0x0660, isDigit(r) }),
		first(func(r rune) (rune, bool) { return r - 'a' + 0xff41, r >= 'a' && r <= 'f' }),
		first(func(r rune) (rune, bool) { return r ^ 0x40, r >= 'a' && r <= 'f' }),
		" " + id, id + " ", id + "\n", "0x" + id, id + "\x00", "\t" + id, id[:len(id)-1] + "\u212a", strings.ToUpper(id) + " ",
	}
}

func maxb(a, b byte) byte {
	if a > b {
		return a
	}
	return b
}

// shapeLevelSafe is shapeLevel for worlds without guaranteed head-room.
func shapeLevelSafe(w *gen.World, shape, status string) gen.PlatformLevel {
	l := shapeLevel(w, shape, status)
	// an overflowed "+1" wraps to 0 (which passes); that is fine for a random generator — the model decides.
	return l
}

// nthIndex returns the index of the n-th (0-based) occurrence of sub in s, or -1.
func nthIndex(s, sub string, n int) int {
	off := 0
	for i := 0; ; i++ {
		j := strings.Index(s[off:], sub)
		if j < 0 {
			return -1
		}
		if i == n {
			return off + j
		}
		off += j + len(sub)
	}
}

// statusNearMisses are strings that are not the status "UpToDate".
var statusNearMisses = []string{"uptodate", "UPTODATE", "Uptodate", "upToDate", "UpToDate ", " UpToDate", "UpToDate\t", "Up To Date", "UpToDate;", "UpT\u043eDate", "UpToDat\u0435", "\uff35pToDate", "UpToDate\u0000", "UpToDate,OutOfDate", "up_to_date", "Up-To-Date"}
