package props

import (
	"bytes"
	"github.com/google/go-tdx-guest/verify/trust"
	"strings"
	"time"

	"encoding/pem"
	"errors"
	"fmt"
	"math/big"
	"testing"

	ccpb "github.com/google/go-tdx-guest/proto/checkconfig"
	"github.com/google/go-tdx-guest/verify"
	"pgregory.net/rapid"
	"verifharness/gen"
)

type crlPlan struct {
	signer    string // "correct", "other-ca", "foreign-key", "wrong-name"
	outcome   string // "ok", "error", "empty", "garbage", "pem", "other-crl"
	revoked   [][]byte
	revokedAt []time.Time
	reasons   []int
	contains  map[string]bool // which of leaf/int/tcb/qe serials are listed
	header    string          // pck only: "ok", "missing", "empty", "one-cert", "pki-b"
}

func nearMisses(serial []byte, s *gen.Stream) [][]byte {
	n := new(big.Int).SetBytes(serial)
	plus := new(big.Int).Add(n, big.NewInt(1)).Bytes()
	minus := new(big.Int).Sub(n, big.NewInt(1)).Bytes()
	rev := make([]byte, len(serial))
	for i := range serial {
		rev[i] = serial[len(serial)-1-i]
	}
	rev[0] &= 0x7f
	hi := append([]byte{}, serial...)
	if len(hi) > 8 {
		hi[0] ^= 0x01 // same low bytes, different high byte
	} else {
		hi = append([]byte{0x01}, hi...)
	}
	trunc := append([]byte{}, serial...)
	if len(trunc) > 1 {
		trunc = trunc[1:] // drop the top byte
	}
	return [][]byte{plus, minus, rev, hi, trunc}
}

func drawRevoked(t *rapid.T, label string, targets map[string][]byte, s *gen.Stream) ([][]byte, map[string]bool) {
	contains := map[string]bool{}
	var list [][]byte
	n := rapid.SampledFrom([]int{0, 0, 1, 3, 30, 300}).Draw(t, label+"-n")
	for i := 0; i < n; i++ {
		b := s.Bytes(1 + s.Intn(20))
		b[0] &= 0x7f
		if b[0] == 0 {
			b[0] = 0x31
		}
		list = append(list, b)
	}
	for _, name := range []string{"leaf", "int", "tcb", "qe"} {
		switch rapid.IntRange(0, 12).Draw(t, label+"-"+name) {
		case 0:
			list = append(list, targets[name])
			contains[name] = true
		case 12:
			// the serial itself AND its near misses (one of which agrees with it in all but the top byte, i.e. modulo 2^64
			// and more), in any order
			list = append(list, targets[name])
			list = append(list, nearMisses(targets[name], s)...)
			contains[name] = true
		case 1, 2, 3:
			list = append(list, nearMisses(targets[name], s)...)
		}
	}
	// shuffle deterministically
	for i := len(list) - 1; i > 0; i-- {
		j := s.Intn(i + 1)
		list[i], list[j] = list[j], list[i]
	}
	// a near miss may coincide with another target: recompute membership exactly
	for name, tb := range targets {
		tv := new(big.Int).SetBytes(tb)
		for _, e := range list {
			if new(big.Int).SetBytes(e).Cmp(tv) == 0 {
				contains[name] = true
			}
		}
	}
	return list, contains
}

func TestC05(t *testing.T) {
	replayDir(t, "C05")
	// each dimension is faulty with probability ~1/8, so single-fault and fault-free cases dominate
	ok7 := func(good string, bad ...string) []string {
		out := []string{}
		for i := 0; i < 7*len(bad); i++ {
			out = append(out, good)
		}
		return append(out, bad...)
	}
	// One retrying getter serves two verifications with revocation checking: everything authentic the first time; the
	// second time one CRL endpoint fails for the whole retry budget (error / answers that are no list). Without that
	// list the second verification cannot have checked revocation: it is rejected, whatever the getter saw before.
	gen.Direct(t, "retrying-getter-across-verifications", func(t *testing.T) {
		i := 0
		for _, ndp := range []int{1, 2} {
			for _, target := range []string{"root-crl", "pck-crl"} {
				for _, how := range []string{"error", "html", "empty"} {
					i++
					if !gen.ShardOwns(i) {
						continue
					}
					dps := []string{gen.RootCrlURL, "https://crl.example.test/second.der"}[:ndp]
					w := gen.NewWorld(gen.NewPKI(gen.PKISpec{Seed: gen.PKISeeds[i%4], RootCRLDP: dps}), gen.NewStream(gen.Seed()+uint64(i), "c05retry")).Build()
					sw := &switchGetter{cur: w.NewGetter()}
					retry := &trust.RetryHTTPSGetter{Timeout: 5 * time.Millisecond, MaxRetryDelay: time.Millisecond, Getter: sw}
					o := w.Options(gen.LvlCRL, nil, nil)
					o.Getter = retry
					gen.Eval()
					if v := gen.Call(func() error { return verify.RawTdxQuote(w.Raw, o) }); !v.Accepted() {
						gen.Fail(t, gen.Violation{Key: "rejects-unrevoked:through-a-retrying-getter", Oracle: "authentic CRLs that do not list the chain's certificates do not cause rejection", Detail: v.String(), Replay: w.CaseFile(gen.LvlCRL, nil, nil, nil, "accept")})
						return
					}
					g2 := w.NewGetter()
					bad := gen.Response{Err: errors.New("scripted: endpoint down")}
					switch how {
					case "html":
						bad = gen.Response{Body: []byte("<html><body>503 Service Unavailable</body></html>")}
					case "empty":
						bad = gen.Response{Body: []byte{}}
					}
					if target == "root-crl" {
						for _, u := range dps {
							g2.Resp[u] = bad
						}
					} else {
						g2.Resp[gen.PckCrlURL("platform")] = bad
					}
					sw.cur = g2
					o2 := w.Options(gen.LvlCRL, nil, nil)
					if i%2 == 0 {
						o2 = o // the very options value of the first verification
					}
					o2.Getter = retry
					gen.Eval()
					v := gen.Call(func() error { return verify.RawTdxQuote(w.Raw, o2) })
					gen.NonTrivial("retry", target, how, ndp)
					gen.Class("retrying-getter:second-verification-without-" + target)
					if v.Panicked() || v.Accepted() {
						gen.Fail(t, gen.Violation{Key: "accepts-despite:" + target + "-not-obtainable-this-time", Oracle: "with revocation on, accepted only if both CRLs were obtained and authenticated and none of the four serials is listed", Detail: fmt.Sprintf("second verification through the same retrying getter, %s now answers with %s (%d root distribution points): %s", target, how, ndp, v), Replay: w.CaseFile(gen.LvlCRL, nil, g2.Resp, nil, "reject")})
						return
					}
				}
			}
		}
	})
	// Serial numbers the standard library refuses to ISSUE but accepts when it parses a certificate: zero, and (for
	// programs built from a module that says go 1.20, as the repository's is) negative ones. A list that names such a
	// certificate's serial revokes it like any other; a list naming a neighbour does not.
	gen.Direct(t, "zero-and-negative-serial-numbers", func(t *testing.T) {
		i := 0
		for _, raw := range [][]byte{{0x00}, {0xfb}, {0x80}, {0xff, 0x7f}, {0x80, 0x00, 0x00, 0x01}} {
			for _, who := range []string{"leaf", "intermediate", "tcb-signer"} {
				for _, listed := range []bool{true, false} {
					i++
					if !gen.ShardOwns(i) {
						continue
					}
					spec := gen.PKISpec{Seed: fmt.Sprintf("c05-oddserial-%x-%s", raw, who)}
					switch who {
					case "intermediate":
						spec.IntSerialRaw = raw
					case "tcb-signer":
						spec.TcbSerialRaw = raw
					}
					var w *gen.World
					if v := gen.Call(func() error {
						w = gen.NewWorld(gen.NewPKI(spec), gen.NewStream(gen.Seed()+uint64(i), "c05odd"))
						if who == "leaf" {
							w.LeafSpec.SerialRaw = raw
						}
						w.SignQuote()
						return nil
					}); v.Panicked() {
						gen.Class("odd-serial:certificate-does-not-parse-in-this-environment")
						continue // a negative serial without the go 1.20 default: the certificate cannot even be parsed here
					}
					entry := raw
					if !listed {
						entry = append(append([]byte{}, raw[:len(raw)-1]...), raw[len(raw)-1]^0x02) // a neighbour
					}
					if who == "leaf" {
						w.PckCrl.RevokedRaw = [][]byte{entry}
					} else {
						w.RootCrl.RevokedRaw = [][]byte{entry}
					}
					w.BuildCollateral()
					o := w.Options(gen.LvlCRL, w.NewGetter(), nil)
					gen.Eval()
					v := gen.Call(func() error { return verify.RawTdxQuote(w.Raw, o) })
					gen.NonTrivial("odd-serial", fmt.Sprintf("%x", raw), who, listed)
					gen.Class(fmt.Sprintf("odd-serial:listed=%v", listed))
					switch {
					case v.Panicked():
						gen.Fail(t, gen.Violation{Key: "panic@" + gen.PanicSite(v.Stack), Oracle: "verification returns a verdict", Detail: v.Panic, Replay: w.CaseFile(gen.LvlCRL, nil, nil, nil, "nopanic")})
						return
					case listed && v.Accepted():
						gen.Fail(t, gen.Violation{Key: "accepts-despite:" + who + "-with-a-zero-or-negative-serial-revoked", Oracle: "with revocation on, accepted only if both CRLs were obtained and authenticated and none of the four serials is listed", Detail: fmt.Sprintf("the %s certificate has the serial number with DER content %x; the authentic list of its issuer names exactly that number: accepted", who, raw), Replay: w.CaseFile(gen.LvlCRL, nil, nil, nil, "reject")})
						return
					case !listed && !v.Accepted():
						gen.Fail(t, gen.Violation{Key: "rejects-unrevoked:" + who + "-with-a-zero-or-negative-serial", Oracle: "authentic CRLs that do not list the chain's certificates do not cause rejection", Detail: fmt.Sprintf("serial content %x, the list names the neighbour %x: %s", raw, entry, v), Replay: w.CaseFile(gen.LvlCRL, nil, nil, nil, "accept")})
						return
					}
				}
			}
		}
	})
	signers := ok7("correct", "other-ca", "foreign-key", "wrong-name", "tampered", "tampered")
	outcomes := ok7("ok", "error", "empty", "garbage", "pem", "other-crl")
	gen.Prop(t, "model", gen.N(3000, 150000), func(t *rapid.T) {
		s := gen.NewStream(rapid.Uint64().Draw(t, "content"), "c05")
		seed := rapid.SampledFrom(gen.PKISeeds).Draw(t, "pki")
		nDP := rapid.IntRange(1, 3).Draw(t, "dps")
		dps := []string{gen.RootCrlURL, "https://crl.example.test/b.der", "https://crl.example.test/c.der"}[:nDP]
		qeSameKey := rapid.IntRange(0, 2).Draw(t, "qeSignerSharesKeyWithTcbSigner") == 0
		oddAKI := rapid.IntRange(0, 2).Draw(t, "oddAuthorityKeyIds") == 0
		p := gen.NewPKI(gen.PKISpec{Seed: seed, RootCRLDP: dps, QeSameKey: qeSameKey, OddAKI: oddAKI})
		if oddAKI {
			gen.Class("authority-key-identifiers-that-match-nothing")
		}
		if qeSameKey {
			gen.Class("qe-signer-is-a-second-certificate-for-the-tcb-signer-key")
		}
		w := gen.NewWorld(p, s)
		if rapid.Bool().Draw(t, "bigserial") {
			w.LeafSpec.Serial = append([]byte{0x7f}, s.Bytes(19)...)
		}
		// serial numbers are unique per ISSUER: the leaf (issued by the platform CA) may carry the number the root gave to
		// the platform CA itself, to the TCB signer or to the QE signer. Each list speaks for its own issuer only.
		switch rapid.SampledFrom([]string{"own", "own", "own", "own", "issuing-ca", "tcb-signer", "qe-signer"}).Draw(t, "leafSerialSameAs") {
		case "issuing-ca":
			w.LeafSpec.Serial = p.Int.X.SerialNumber.Bytes()
			gen.Class("leaf-shares-its-serial-with-a-certificate-of-the-root")
		case "tcb-signer":
			w.LeafSpec.Serial = p.TcbSig.X.SerialNumber.Bytes()
			gen.Class("leaf-shares-its-serial-with-a-certificate-of-the-root")
		case "qe-signer":
			w.LeafSpec.Serial = p.QeSig.X.SerialNumber.Bytes()
			gen.Class("leaf-shares-its-serial-with-a-certificate-of-the-root")
		}
		if oddAKI {
			w.LeafSpec.AKI = []byte{0xc1, 0xc2, 0xc3, 0xc4, 0xc5, 0xc6, 0xc7, 0xc8, 0xc9, 0xca, 0xcb, 0xcc, 0xcd, 0xce, 0xcf, 0xd0, 0xd1, 0xd2, 0xd3, 0xd4}
		}
		// the relying party's bundle may hold more than the root: the whole chain (root and issuing CA), or the signer of
		// the TCB documents too. Revocation is a statement about the certificates the quote and the collateral carry.
		switch rapid.SampledFrom([]string{"root", "root", "root", "chain", "chain", "everything"}).Draw(t, "trustedBundleLists") {
		case "chain":
			w.PoolExtra = []*gen.Cert{p.Int}
			gen.Class("pool:also-lists-the-issuing-ca")
		case "everything":
			w.PoolExtra = []*gen.Cert{p.TcbSig, p.Int}
			gen.Class("pool:also-lists-the-issuing-ca")
		}
		pastTimes := false
		switch rapid.IntRange(0, 4).Draw(t, "defaultTimeSet") {
		case 0:
			w.UseRealNow() // Options.Now == nil, as RootOfTrustToOptions / the check tool use it
			gen.Class("default-time-set")
		case 1:
			// a verification pinned years BEFORE the wall clock (an audit of an old quote): what counts as current is the pinned time
			shift := -10 * 365 * 24 * time.Hour
			w.Times = verify.TimeSet{PckCertChain: w.Times.PckCertChain.Add(shift), TcbInfo: w.Times.TcbInfo.Add(shift), QeIdentity: w.Times.QeIdentity.Add(shift), PckCrl: w.Times.PckCrl.Add(shift), RootCaCrl: w.Times.RootCaCrl.Add(shift)}
			pastTimes = true
			gen.Class("times-pinned-before-the-wall-clock")
		}
		w.Build()
		// an entry's revocation DATE is informational: a listed serial is revoked whatever its date
		datesFor := func(n int) []time.Time {
			out := make([]time.Time, n)
			base := w.Times.PckCrl
			for i := range out {
				switch s.Intn(6) {
				case 0:
					out[i] = base.Add(time.Second)
				case 1:
					out[i] = base.Add(48 * time.Hour)
				case 2:
					out[i] = base.AddDate(5, 0, 0)
				case 3:
					out[i] = base.Add(-time.Second)
				case 4:
					out[i] = base.AddDate(-3, 0, 0)
				}
			}
			return out
		}
		targets := map[string][]byte{"leaf": w.Leaf.X.SerialNumber.Bytes(), "int": p.Int.X.SerialNumber.Bytes(), "tcb": p.TcbSig.X.SerialNumber.Bytes(), "qe": p.QeSig.X.SerialNumber.Bytes()}

		pck := crlPlan{signer: rapid.SampledFrom(signers).Draw(t, "pckSigner"), outcome: rapid.SampledFrom(outcomes).Draw(t, "pckOutcome"), header: rapid.SampledFrom(append(ok7("ok", "missing", "empty", "one-cert", "pki-b", "forged-matching-foreign-key", "forged-matching-foreign-key"), "other-edition-of-the-issuing-ca", "other-edition-of-the-issuing-ca", "other-edition-of-the-issuing-ca")).Draw(t, "pckHeader")}
		pck.revoked, pck.contains = drawRevoked(t, "pck", targets, s)
		pck.revokedAt = datesFor(len(pck.revoked))
		root := crlPlan{signer: rapid.SampledFrom(signers).Draw(t, "rootSigner")}
		root.revoked, root.contains = drawRevoked(t, "root", targets, s)
		// a third of the cases vary ONE list only: everything about the other one is as it should be (correct signer, every
		// distribution point answering, nothing of the chain listed), so that each single deviation decides a verdict on
		// its own and is met many times in every run
		focus := rapid.SampledFrom([]string{"both", "both", "both", "pck-list-only", "pck-list-only", "root-list-only"}).Draw(t, "deviationsIn")
		switch focus {
		case "pck-list-only":
			root.signer, root.revoked, root.contains = "correct", nil, map[string]bool{}
			// ... and the PCK list's signer and issuer-chain header are drawn evenly from the kinds there are (the general
			// draw favours the correct ones), mostly with the endpoint answering
			pck.signer = rapid.SampledFrom([]string{"correct", "other-ca", "foreign-key", "wrong-name", "tampered"}).Draw(t, "pckSignerEvenly")
			pck.header = rapid.SampledFrom([]string{"ok", "missing", "empty", "one-cert", "pki-b", "forged-matching-foreign-key", "other-edition-of-the-issuing-ca"}).Draw(t, "pckHeaderEvenly")
			if rapid.IntRange(0, 3).Draw(t, "pckEndpointAnswers") > 0 {
				pck.outcome = "ok"
			}
			if rapid.Bool().Draw(t, "nothingOfTheChainOnThePckList") {
				pck.revoked, pck.contains, pck.revokedAt = nil, map[string]bool{}, nil
			}
		case "root-list-only":
			pck.signer, pck.outcome, pck.header, pck.revoked, pck.contains = "correct", "ok", "ok", nil, map[string]bool{}
			pck.revokedAt = nil
		}
		gen.Class("deviations-in:" + focus)
		root.revokedAt = datesFor(len(root.revoked))
		// reason codes are informational too: unspecified .. aACompromise incl. removeFromCRL(8) and certificateHold(6)
		reasonsFor := func(n int) []int {
			out := make([]int, n)
			for i := range out {
				if s.Intn(2) == 0 {
					out[i] = []int{1, 2, 3, 4, 5, 6, 8, 8, 9, 10}[s.Intn(10)]
				}
			}
			return out
		}
		pck.reasons, root.reasons = reasonsFor(len(pck.revoked)), reasonsFor(len(root.revoked))

		// how the lists are encoded: by the standard library, or by hand with the issuer's name spelled in UTF8String
		// attribute values (the certificates use PrintableString) and / or without a cRLNumber extension
		crlEnc := rapid.SampledFrom([]string{"stdlib", "stdlib", "utf8-issuer", "no-number", "utf8-issuer-no-number"}).Draw(t, "crlEncoding")
		gen.Class("crl-encoding:" + crlEnc)
		encode := func(issuerCert *gen.Cert, key *gen.Key, spec gen.CRLSpec) []byte {
			if crlEnc == "stdlib" {
				return gen.MakeCRL(issuerCert, key, spec)
			}
			var raw []byte
			if strings.HasPrefix(crlEnc, "utf8") {
				raw = gen.RawNameUTF8(issuerCert.X.Subject)
			}
			return gen.MakeCRLByHand(issuerCert, key, spec, raw, !strings.HasSuffix(crlEnc, "no-number"))
		}
		foreign := gen.DeriveKey("c05/foreign")
		authentic := map[string][]byte{} // per kind: the CRL as its issuer really signed it
		mk := func(kind string, pl crlPlan) []byte {
			issuerCert, key := p.Int, p.Int.Key
			otherCert, otherKey := p.Root, p.Root.Key
			if kind == "root" {
				issuerCert, key, otherCert, otherKey = p.Root, p.Root.Key, p.Int, p.Int.Key
			}
			spec := gen.CRLSpec{Revoked: pl.revoked, RevokedAt: pl.revokedAt, Reasons: pl.reasons}
			authentic[kind] = encode(issuerCert, key, spec)
			switch pl.signer {
			case "other-ca":
				return encode(issuerCert, otherKey, spec) // right name, signed by the other CA's key
			case "foreign-key":
				return encode(issuerCert, foreign, spec)
			case "wrong-name":
				return encode(otherCert, key, spec) // right key, other issuer name
			case "tampered":
				// the authentic CRL with one listed serial altered after signing (signature bytes untouched)
				victim := append([]byte{0x5a}, s.Bytes(9)...)
				for _, name := range []string{"leaf", "int", "tcb", "qe"} {
					if pl.contains[name] {
						victim = targets[name]
					}
				}
				listed := false
				for _, e := range spec.Revoked {
					if bytes.Equal(e, victim) {
						listed = true
					}
				}
				if !listed {
					spec.Revoked = append(append([][]byte{}, spec.Revoked...), victim)
				}
				authentic[kind] = encode(issuerCert, key, spec)
				der := append([]byte{}, authentic[kind]...)
				i := bytes.Index(der, victim)
				if i < 0 {
					gen.HarnessError(t, "tampered CRL: listed serial not found in the DER")
				}
				der[i+len(victim)-1] ^= 0x01
				return der
			}
			return encode(issuerCert, key, spec)
		}
		pckDER, rootDER := mk("pck", pck), mk("root", root)
		body := func(outcome string, own, other []byte) gen.Response {
			switch outcome {
			case "error":
				return gen.Response{Err: errors.New("scripted endpoint failure")}
			case "empty":
				return gen.Response{Body: []byte{}}
			case "garbage":
				return gen.Response{Body: s.Bytes(200)}
			case "pem":
				return gen.Response{Body: pem.EncodeToMemory(&pem.Block{Type: "X509 CRL", Bytes: own})}
			case "other-crl":
				return gen.Response{Body: other}
			}
			return gen.Response{Body: own}
		}
		pr := body(pck.outcome, pckDER, rootDER)
		switch pck.header {
		case "ok":
			pr.Header = map[string][]string{gen.HdrPckCrl: {gen.IssuerChainHeader(p.Int, p.Root)}}
		case "other-edition-of-the-issuing-ca":
			// the PCS sends another, equally genuine certificate of the CA that issued the PCK certificate (same name and
			// key, another serial number): it authenticates the list just as well - and says nothing about whether the
			// certificate IN THE QUOTE's chain is revoked
			ed := gen.MakeCert(gen.CertSpec{CN: p.Int.X.Subject.CommonName, KeyLabel: seed + "/int", Serial: []byte{0x42, 0x17, 0x42, 0x17, 0x42, 0x17, 0x42, 0x17, 0x01}, NotBefore: gen.Wide.NotBefore, NotAfter: gen.Wide.NotAfter, CA: true, CRLDP: dps, AKI: p.Int.X.AuthorityKeyId}, p.Root)
			pr.Header = map[string][]string{gen.HdrPckCrl: {gen.IssuerChainHeader(ed, p.Root)}}
		case "empty":
			pr.Header = map[string][]string{gen.HdrPckCrl: {""}}
		case "one-cert":
			pr.Header = map[string][]string{gen.HdrPckCrl: {gen.IssuerChainHeader(p.Int)}}
		case "pki-b":
			pb := gen.NewPKI(gen.PKISpec{Seed: "pki-other-hdr"})
			pr.Header = map[string][]string{gen.HdrPckCrl: {gen.IssuerChainHeader(pb.Int, pb.Root)}}
		case "forged-matching-foreign-key":
			// a certificate carrying the Platform CA's exact name and the FOREIGN key that signs forged CRLs,
			// under a look-alike root: the two inputs (CRL signature, header) cooperate
			fakeRoot := gen.MakeCert(gen.CertSpec{CN: gen.CNRoot, KeyLabel: "c05/fakeroot", Serial: []byte{5, 5}, NotBefore: gen.Wide.NotBefore, NotAfter: gen.Wide.NotAfter, CA: true, CRLDP: dps}, nil)
			fakeInt := gen.MakeCert(gen.CertSpec{CN: gen.CNPlatform, KeyLabel: "c05/foreign", Serial: p.Int.X.SerialNumber.Bytes(), NotBefore: gen.Wide.NotBefore, NotAfter: gen.Wide.NotAfter, CA: true, CRLDP: dps}, fakeRoot)
			pr.Header = map[string][]string{gen.HdrPckCrl: {gen.IssuerChainHeader(fakeInt, fakeRoot)}}
			if pck.signer != "correct" {
				pck.signer = "foreign-key"
				pckDER = mk("pck", pck)
				pr.Body = body(pck.outcome, pckDER, rootDER).Body
			}
		}
		w.Resp[gen.PckCrlURL("platform")] = pr
		// root CRL distribution points: each has its own outcome
		dpOutcome := make([]string, nDP)
		firstUsable := -1 // first DP (in order) that returns a body which parses as a CRL
		firstKind := ""
		// the distribution points need not serve the same list: the "alternative" list differs from the plan's in whether
		// it names the intermediate CA, and (for pinned-past verifications) is due between the pinned time and the wall clock
		altPlan := root
		altPlan.contains = map[string]bool{}
		for k, v := range root.contains {
			altPlan.contains[k] = v
		}
		altSpec := gen.CRLSpec{Revoked: root.revoked}
		if root.contains["int"] {
			altSpec.Revoked = nil
			for _, e := range root.revoked {
				if new(big.Int).SetBytes(e).Cmp(p.Int.X.SerialNumber) != 0 {
					altSpec.Revoked = append(altSpec.Revoked, e)
				}
			}
			altPlan.contains["int"] = false
		} else {
			altSpec.Revoked = append(append([][]byte{}, root.revoked...), p.Int.X.SerialNumber.Bytes())
			altPlan.contains["int"] = true
		}
		if pastTimes {
			altSpec.NextUpdate = w.Times.RootCaCrl.Add(2 * 365 * 24 * time.Hour)
		}
		altDER := encode(p.Root, p.Root.Key, altSpec)
		expiredEmpty := encode(p.Root, p.Root.Key, gen.CRLSpec{NextUpdate: w.Times.RootCaCrl.Add(-time.Hour), ThisUpdate: w.Times.RootCaCrl.Add(-48 * time.Hour)})
		dpAlt := make([]bool, nDP)
		usedPlan := root
		var scripts = map[string][]gen.Response{}
		for i, u := range dps {
			dpOutcome[i] = rapid.SampledFrom(append(append([]string{}, outcomes...), "changing", "changing")).Draw(t, fmt.Sprintf("dp%d", i))
			dpAlt[i] = root.signer == "correct" && rapid.IntRange(0, 2).Draw(t, fmt.Sprintf("dpAlt%d", i)) == 0
			if focus == "pck-list-only" {
				dpOutcome[i], dpAlt[i] = "ok", false
			}
			own := rootDER
			if dpAlt[i] {
				own = altDER
			}
			if dpOutcome[i] == "changing" {
				// the first answer is an authentic list that is past its nextUpdate and names nobody; asked again, the
				// endpoint serves the current list
				scripts[u] = []gen.Response{{Body: expiredEmpty}}
				w.Resp[u] = gen.Response{Body: own}
			} else {
				w.Resp[u] = body(dpOutcome[i], own, pckDER)
			}
			if firstUsable < 0 && (dpOutcome[i] == "ok" || dpOutcome[i] == "other-crl" || dpOutcome[i] == "changing") {
				firstUsable, firstKind = i, dpOutcome[i]
				if dpAlt[i] {
					usedPlan = altPlan
				}
			}
		}
		root = usedPlan
		newGetter := func() *gen.Getter {
			g := w.NewGetter()
			for u, sc := range scripts {
				g.Script[u] = append([]gen.Response{}, sc...)
			}
			return g
		}
		// ---- model ----
		reject, dontCare := "", ""
		if pck.outcome != "ok" {
			reject = "PCK CRL " + pck.outcome
		}
		if pck.header != "ok" && pck.header != "other-edition-of-the-issuing-ca" && pck.header != "pki-b" && pck.header != "forged-matching-foreign-key" {
			dontCare = "PCK CRL issuer-chain header " + pck.header
		}
		if pck.header == "pki-b" || pck.header == "forged-matching-foreign-key" {
			dontCare = "PCK CRL issuer-chain header from another PKI"
		}
		if pck.signer != "correct" {
			reject = "PCK CRL signer " + pck.signer
		}
		if firstUsable < 0 {
			reject = "no root CRL obtainable"
		} else if firstKind == "other-crl" {
			reject = "root CRL endpoint serves the PCK CRL"
			for i := firstUsable + 1; i < nDP; i++ {
				if dpOutcome[i] == "ok" {
					dontCare = "first usable distribution point serves a CRL of another issuer, a later one is good"
				}
			}
		}
		if firstKind == "changing" {
			reject = "the root CRL first obtained is past its nextUpdate"
		}
		if root.signer != "correct" && firstKind == "ok" {
			reject = "root CRL signer " + root.signer
		}
		if pck.outcome == "ok" && pck.signer == "correct" && pck.contains["leaf"] {
			reject = "leaf revoked"
		}
		if firstKind == "ok" && root.signer == "correct" {
			for _, n := range []string{"int", "tcb", "qe"} {
				if root.contains[n] {
					reject = n + " certificate revoked"
				}
			}
		}
		// ---- history: the same process may have seen the authentic lists a moment ago ----
		history := "fresh"
		// one retrying getter (as DefaultOptions / the check tool build it) may serve both verifications: what it fetched
		// for the first one is no answer to the requests of the second
		sw := &switchGetter{}
		retry := &trust.RetryHTTPSGetter{Timeout: 3 * time.Millisecond, MaxRetryDelay: time.Millisecond, Getter: sw}
		throughRetry := false
		if hk := rapid.IntRange(0, 2).Draw(t, "authenticListsVerifiedFirst"); hk > 0 {
			history = "after-authentic-lists"
			throughRetry = hk == 2
			if throughRetry {
				history = "after-authentic-lists-through-the-same-retrying-getter"
			}
			g0 := w.NewGetter()
			g0.Resp[gen.PckCrlURL("platform")] = gen.Response{Header: map[string][]string{gen.HdrPckCrl: {gen.IssuerChainHeader(p.Int, p.Root)}}, Body: authentic["pck"]}
			for _, u := range dps {
				g0.Resp[u] = gen.Response{Body: authentic["root"]}
			}
			o0 := w.Options(gen.LvlCRL, g0, nil)
			if throughRetry {
				sw.cur = g0
				o0.Getter = retry
			}
			gen.Eval()
			if v0 := gen.Call(func() error { return verify.RawTdxQuote(w.Raw, o0) }); v0.Panicked() {
				gen.Fail(t, gen.Violation{Key: "panic@" + gen.PanicSite(v0.Stack), Oracle: "verification returns a verdict", Detail: v0.Panic, Replay: w.CaseFile(gen.LvlCRL, nil, g0.Resp, nil, "nopanic")})
				return
			}
		}
		gen.Class("history:" + history)
		// ---- run ----
		rp := w.CaseFile(gen.LvlCRL, nil, nil, nil, map[bool]string{true: "reject", false: "accept"}[reject != ""])
		rp["history"] = history
		o := w.Options(gen.LvlCRL, newGetter(), nil)
		if throughRetry {
			sw.cur = o.Getter
			o.Getter = retry
		}
		prehist := ""
		if !throughRetry {
			pk := prehistoryKind(w.Raw)
			rp["prehistory"] = pk
			if prehist = optionsPrehistory(w.Raw, o, pk, nil); prehist != "" {
				gen.Class("options-value-used-before")
			}
		}
		gen.Eval()
		v := gen.Call(func() error { return verify.RawTdxQuote(w.Raw, o) })
		if v.Panicked() {
			gen.Fail(t, gen.Violation{Key: "panic@" + gen.PanicSite(v.Stack), Oracle: "verification returns a verdict", Detail: v.Panic, Replay: rp})
			return
		}
		desc := fmt.Sprintf("pck{%s,%s,hdr=%s,lists=%v} root{%s,dps(outcome,alternative-list)=%v,lists=%v} qeSignerSharesKey=%v history=%s %s", pck.signer, pck.outcome, pck.header, keysOf(pck.contains), root.signer, fmt.Sprint(dpOutcome, dpAlt), keysOf(root.contains), qeSameKey, history, prehist)
		if reject != "" && v.Accepted() {
			gen.Fail(t, gen.Violation{Key: "accepts-despite:" + keyClass(reject), Oracle: "with revocation on, accepted only if both CRLs were obtained and authenticated and none of the four serials is listed", Detail: desc + ": " + reject, Replay: rp})
			return
		}
		if reject == "" && dontCare == "" && !v.Accepted() {
			gen.Fail(t, gen.Violation{Key: "rejects-unrevoked:" + errClass(v.Err), Oracle: "authentic CRLs that do not list the chain's certificates do not cause rejection", Detail: desc + ": " + v.String(), Replay: rp})
			return
		}
		// without CheckRevocations the CRL data is irrelevant
		o2 := w.Options(gen.LvlColl, newGetter(), nil)
		gen.Eval()
		if v2 := gen.Call(func() error { return verify.RawTdxQuote(w.Raw, o2) }); !v2.Accepted() {
			rp2 := w.CaseFile(gen.LvlColl, nil, nil, nil, "accept")
			gen.Fail(t, gen.Violation{Key: "crl-data-matters-without-revocation-check", Oracle: "CRL data only matters when revocation checking is on", Detail: desc + ": " + v2.String(), Replay: rp2})
			return
		}
		o3 := w.Options(gen.LvlCRLNoColl, newGetter(), nil)
		if rapid.Bool().Draw(t, "optionsFromRootOfTrustConfig") {
			// the same request expressed as a root-of-trust configuration (check_crl without get_collateral)
			var oc *verify.Options
			vc := gen.Call(func() error {
				var err error
				oc, err = verify.RootOfTrustToOptions(&ccpb.RootOfTrust{Cabundles: []string{string(p.Root.PEM)}, CheckCrl: true, GetCollateral: false})
				return err
			})
			if vc.Accepted() && oc != nil {
				oc.Getter, oc.Now = o3.Getter, o3.Now
				o3 = oc
				gen.Class("crl-without-collateral:via-root-of-trust-config")
			}
		}
		gen.Eval()
		if v3 := gen.Call(func() error { return verify.RawTdxQuote(w.Raw, o3) }); v3.Accepted() {
			gen.Fail(t, gen.Violation{Key: "crl-without-collateral-accepted", Oracle: "asking for revocation checks without collateral fetching always fails", Detail: desc, Replay: w.CaseFile(gen.LvlCRLNoColl, nil, nil, nil, "reject")})
			return
		}
		cls := "accept"
		if reject != "" {
			cls = "reject:" + keyClass(reject)
		} else if dontCare != "" {
			cls = "dontcare:" + keyClass(dontCare)
		}
		gen.Class("model:" + cls)
		gen.NonTrivial(desc, len(pck.revoked), len(root.revoked), seed)
		gen.Sample("crl", desc+" => "+cls)
	})
}

func keysOf(m map[string]bool) []string {
	var out []string
	for _, k := range []string{"leaf", "int", "tcb", "qe"} {
		if m[k] {
			out = append(out, k)
		}
	}
	return out
}

// switchGetter hands every request to whatever getter is current (one long-lived wrapper, changing answers behind it).
type switchGetter struct{ cur trust.HTTPSGetter }

func (g *switchGetter) Get(u string) (map[string][]string, []byte, error) { return g.cur.Get(u) }
