package props

import (
	_ "a0quiet"
	"io"
	"os"
	"testing"

	"github.com/google/logger"
	"verifharness/gen"
)

func TestMain(m *testing.M) {
	// The library logs through a process-global logger; silence it.
	logger.Init("", false, false, io.Discard)
	// The library's verbose log lines are code too: odd-numbered shards run with verbosity 2 (output still discarded).
	if sh, _ := gen.Shard(); sh%2 == 1 {
		logger.SetLevel(2)
	}
	gen.SetProperty(os.Getenv("VERIF_PROP"))
	code := m.Run()
	if gen.AsyncFailed() && code == 0 {
		code = 1
	}
	if os.Getenv("VERIF_FUZZ") == "" {
		gen.WriteParts()
	}
	os.Exit(code)
}
