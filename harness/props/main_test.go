package props

import (
	_ "a0quiet"
	"io"
	"os"
	"testing"

	"github.com/google/logger"
	"verifharness/gen"
)

func TestMain(m *testing.M) {
	// The library logs through a process-global logger; silence it.
	logger.Init("", false, false, io.Discard)
	gen.SetProperty(os.Getenv("VERIF_PROP"))
	code := m.Run()
	if gen.AsyncFailed() && code == 0 {
		code = 1
	}
	if os.Getenv("VERIF_FUZZ") == "" {
		gen.WriteParts()
	}
	os.Exit(code)
}
