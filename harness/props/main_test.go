package props

import (
	_ "a0quiet"
	"io"
	"os"
	"runtime"
	"strings"
	"testing"

	"github.com/google/logger"
	"verifharness/gen"
)

func TestMain(m *testing.M) {
	// The library logs through a process-global logger; silence it.
	logger.Init("", false, false, io.Discard)
	// The library's verbose log lines are code too: odd-numbered shards run with verbosity 2 (output still discarded).
	if sh, _ := gen.Shard(); sh%2 == 1 {
		logger.SetLevel(2)
	}
	// (0) The number of processors the Go scheduler uses is part of the environment: of every four shards one runs with
	// two and one with a single or three processors (the race-build companions keep the machine's count).
	if sh, n := gen.Shard(); n >= 4 && os.Getenv("VERIF_RACE_DIR") == "" {
		switch {
		case sh%4 == 2:
			runtime.GOMAXPROCS(2)
		case sh%8 == 3:
			runtime.GOMAXPROCS(1)
		case sh%8 == 7:
			runtime.GOMAXPROCS(3)
		}
	}
	gen.SetProperty(os.Getenv("VERIF_PROP"))
	// The process environment is an input too. (1) The repository's go.mod says "go 1.20": programs built from it (the
	// check tool) run with the x509negativeserial=1 default of that language version, i.e. certificates with a negative
	// serial number parse; the harness module asks for the same, so that such certificates reach the library's own code.
	// (2) The machine's certificate store (SSL_CERT_FILE) holds the harness's own root CAs and nothing else: a library
	// that ever consults the system store instead of the caller's pool or the embedded Intel root shows.
	if gd := os.Getenv("GODEBUG"); !strings.Contains(gd, "x509negativeserial") {
		_ = os.Setenv("GODEBUG", strings.TrimPrefix(gd+",x509negativeserial=1", ","))
	}
	storeFile := ""
	if os.Getenv("VERIF_KEEP_SSL_CERT_FILE") == "" {
		if f, err := os.CreateTemp(gen.VerifDir()+"/.build", "system-roots-*.pem"); err == nil {
			for _, seed := range append(append([]string{}, gen.PKISeeds...), "pki-Z", "pki-decoy", "pki-c18-other") {
				_, _ = f.Write(gen.NewPKI(gen.PKISpec{Seed: seed}).Root.PEM)
			}
			_ = f.Close()
			storeFile = f.Name()
			_ = os.Setenv("SSL_CERT_FILE", storeFile)
			_ = os.Setenv("SSL_CERT_DIR", "/nonexistent-verif-cert-dir")
		}
	}
	code := m.Run()
	if storeFile != "" {
		_ = os.Remove(storeFile)
	}
	if gen.AsyncFailed() && code == 0 {
		code = 1
	}
	if os.Getenv("VERIF_FUZZ") == "" {
		gen.WriteParts()
	}
	os.Exit(code)
}
