package props

import (
	"bytes"
	"fmt"
	"sync"
	"testing"

	"github.com/google/go-tdx-guest/abi"
	pb "github.com/google/go-tdx-guest/proto/tdx"
	"google.golang.org/protobuf/proto"
	"verifharness/gen"
)

// TestC09Concurrent (race build): several goroutines serialise and parse quotes at the same time, each its own (or, in
// half of the rounds, all the same) message: every result is exactly the reference encoding / the message.
func TestC09Concurrent(t *testing.T) {
	gen.Direct(t, "concurrent-serialise-and-parse", func(t *testing.T) {
		rounds := gen.N(30, 2000)
		for round := 0; round < rounds; round++ {
			bad, n, reps, same := c09ConcRound(gen.NewStream(gen.ProcSeed()*59+uint64(round), "c09conc"))
			gen.EvalN(2 * n * reps)
			rp := map[string]any{"kind": "c09-concurrent", "needs_race": true, "goroutines": n, "round_trips_each": reps, "same_message": same}
			if bad != "" {
				gen.Fail(t, gen.Violation{Key: "concurrent:roundtrip-bytes", Oracle: "serialising reproduces the quote byte for byte and parsing returns the message, also while other quotes are being serialised and parsed", Detail: bad, Replay: rp})
				return
			}
			if rep := raceLogs(); rep != "" {
				rp["race_report"] = rep[:min(len(rep), 6000)]
				gen.Fail(t, gen.Violation{Key: "data-race@" + raceSite(rep), Oracle: "serialising and parsing share no mutable state between calls", Detail: "race detector report starts: " + firstLines(rep, 12), Replay: rp})
				return
			}
			gen.NonTrivial("c09conc", n, reps, same, round)
			gen.Class(fmt.Sprintf("concurrent-round:same-message=%v", same))
			if round < 3 {
				gen.Sample("concurrent", map[string]any{"goroutines": n, "round_trips_each": reps, "same_message": same})
			}
		}
	})
}

// c09ConcRound runs one round drawn from s; it returns the first wrong result ("" if none).
func c09ConcRound(s *gen.Stream) (bad string, n, reps int, same bool) {
	n = 2 + s.Intn(12)
	reps = []int{5, 60, 400}[s.Intn(3)]
	same = s.Intn(2) == 0
	type job struct {
		m    *pb.QuoteV4
		want []byte
		bad  string
	}
	jobs := make([]*job, n)
	var shared *gen.RefQuote
	for i := range jobs {
		q := gen.RandomRefQuote(s, []int{0, 32, 300}[s.Intn(3)], []int{0, 50, 3000}[s.Intn(3)], []int{0, 9}[s.Intn(2)])
		if same {
			if shared == nil {
				shared = q
			}
			q = shared
		}
		jobs[i] = &job{m: q.ToProto(), want: q.Encode()}
	}
	start := make(chan struct{})
	var wg sync.WaitGroup
	for _, j := range jobs {
		wg.Add(1)
		go func(j *job) {
			defer wg.Done()
			<-start
			for r := 0; r < reps; r++ {
				var got []byte
				v := gen.Call(func() error {
					var err error
					got, err = abi.QuoteToAbiBytes(j.m)
					return err
				})
				if !v.Accepted() || !bytes.Equal(got, j.want) {
					j.bad = "serialise: " + v.String() + " " + firstDiff(got, j.want)
					return
				}
				var back any
				v = gen.Call(func() error {
					var err error
					back, err = abi.QuoteToProto(j.want)
					return err
				})
				if bm, ok := back.(*pb.QuoteV4); !v.Accepted() || !ok || !proto.Equal(bm, j.m) {
					j.bad = "parse: " + v.String()
					return
				}
			}
		}(j)
	}
	close(start)
	wg.Wait()
	for i, j := range jobs {
		if j.bad != "" {
			return fmt.Sprintf("goroutine %d of %d (same message=%v): %s", i, n, same, j.bad), n, reps, same
		}
	}
	return "", n, reps, same
}

func init() {
	replayKinds["c09-concurrent"] = func(c map[string]any) string {
		for k := 0; k < 60; k++ {
			if bad, _, _, _ := c09ConcRound(gen.NewStream(uint64(7000+k), "c09conc")); bad != "" {
				return bad
			}
			if rep := raceLogs(); rep != "" {
				return "data race: " + firstLines(rep, 8)
			}
		}
		return ""
	}
}
