module a0quiet

go 1.20

require github.com/google/logger v1.1.1
