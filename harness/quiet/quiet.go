// Package quiet silences the process-global github.com/google/logger before the library's own
// package initialisers claim it: only the FIRST logger.Init call sets the default logger, and Go
// initialises ready packages in import-path order, so this module's path ("a0quiet") sorts ahead of
// github.com/google/go-tdx-guest/... . Without it every verification writes WARN lines to stdout.
package quiet

import (
	"io"

	"github.com/google/logger"
)

func init() {
	logger.Init("", false, false, io.Discard)
}
